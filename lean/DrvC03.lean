import Lcapy.Driver.Loop
import Lcapy.Driver.C01
def main : IO Unit := Lcapy.Driver.runDriver [Lcapy.Driver.C01.handle]
