import Lcapy.Driver.Loop
import Lcapy.Driver.C07
import Lcapy.Driver.C08
def main : IO Unit := Lcapy.Driver.runDriver [Lcapy.Driver.C07.handle, Lcapy.Driver.C07.handleTP, Lcapy.Driver.C08.handle]
