import Lcapy.Driver.Loop
import Lcapy.Driver.C01
import Lcapy.Driver.C14
def main : IO Unit := Lcapy.Driver.runDriver [Lcapy.Driver.C01.handle, Lcapy.Driver.C14.handle]
