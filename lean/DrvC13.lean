import Lcapy.Driver.Loop
import Lcapy.Driver.C13
def main : IO Unit := Lcapy.Driver.runDriver [Lcapy.Driver.C13.handle]
