import Lcapy.Driver.Loop
import Lcapy.Driver.C05
def main : IO Unit := Lcapy.Driver.runDriver [Lcapy.Driver.C05.handle]
